"""Contracts for httpcore/_async/http2.py (AsyncHTTP2Connection, HTTP2ConnectionByteStream,
has_body_headers) and the sync twin.  h2 itself is an assumed contract (ext_h2.py).

C12 (stream isolation, slot accounting, wait-for), C13 (flow control), C01/C02 (demux and
delivery), C03 (header list / body), C05/C06 (slot + stream on every exit), C09 (expiry),
C14 (GOAWAY / gates), C15 (exception classes), C16 (timeouts)."""
from __future__ import annotations

import z3

from pyvc.values import *  # noqa: F401,F403
from pyvc.engine import Contract, GeneratorContract, Unsupported
from pyvc.builtins_ import exists_in, filter_map, filter_map_step
from .common import NS, EXC, NET_READ_RAISES, NET_WRITE_RAISES, timeout_of, stream_of_interest
from .ext_runtime import LOCK, SEM, lock_id
from .ext_h2 import X, EV, H2_PROTOCOL_ERROR, NO_IDS
from .m_models_fields import ORIGIN, REQUEST, URL, RESPONSE, origin_fields_equal
from .m_models import has_key

MOD = "httpcore._async.http2."
H2 = MOD + "AsyncHTTP2Connection"
BS2 = MOD + "HTTP2ConnectionByteStream"
H2C = X

ACTIVE, IDLE, CLOSED = 1, 2, 3
CNA = EXC + "ConnectionNotAvailable"
LPE = EXC + "LocalProtocolError"
RPE = EXC + "RemoteProtocolError"

IO_RAISES = NET_READ_RAISES + NET_WRITE_RAISES
STEPS = ("_send_request_headers", "_send_request_body", "_receive_response", "_response_closed")


def F(c, ref, key, old=False):
    return (c.old(ref, key) if old else c.new(ref, key)).t


def ext_of(c, request):
    return F(c, request, "Request.extensions")


def kwarg(ev, name, pos=None):
    if name in ev.data["kwargs"]:
        return ev.data["kwargs"][name]
    a = ev.data["args"]
    if pos is not None and len(a) > pos:
        return a[pos]
    return None


def cna_is_propagated(exc):
    """ConnectionNotAvailable tells the pool to send the request again elsewhere.  After the exchange
    on a stream began it may only come out of `_receive_events` (GOAWAY with a lower last-stream-id,
    checked there before any read): every other function merely passes it on from a callee."""
    return bool(exc.tag.get("from"))  # raised by a `raise` statement of this function: no origin tag


def register(reg):
    reg.fields(
        H2,
        "H2",
        const=["_origin", "_network_stream", "_keepalive_expiry", "_h2_state", "_init_lock", "_state_lock", "_read_lock", "_write_lock"],
        shared=["_state", "_expire_at", "_request_count", "_sent_connection_init", "_used_all_stream_ids", "_connection_error",
                "_events", "_connection_terminated", "_read_exception", "_write_exception", "_max_streams", "_max_streams_semaphore"],
        _origin="ref:" + ORIGIN,
        _network_stream="ref:" + NS,
        _keepalive_expiry="opt:real",
        _h2_state="ref:" + X,
        _state="int",
        _expire_at="opt:real",
        _request_count="int",
        _init_lock="ref:" + LOCK,
        _state_lock="ref:" + LOCK,
        _read_lock="ref:" + LOCK,
        _write_lock="ref:" + LOCK,
        _sent_connection_init="bool",
        _used_all_stream_ids="bool",
        _connection_error="bool",
        _events="dict:int:seq:ref:" + EV,
        _connection_terminated="ref:" + EV,
        _read_exception="val",
        _write_exception="val",
        _max_streams="int",
        _max_streams_semaphore="ref:" + SEM,
    )
    reg.fields(BS2, "BS2", const=["_connection", "_request", "_stream_id"], _connection="ref:" + H2, _request="ref:" + REQUEST, _stream_id="int", _closed="bool")
    reg.fields(SEM, "SemG", ghost=["mine"], mine="int")  # ghost: releases minus acquires done by this control flow

    def my_streams(st):
        return st.ghost.setdefault("h2_my_streams", [])

    def rely(it, st, old):
        """other tasks never touch the event queue of a stream this flow registered (they only
        append events carrying that stream id: guarantee events_queued_on_their_own_stream), and
        a terminated connection stays terminated"""
        eng = it.eng
        for conn, sid in my_streams(st):
            ksort = z3.ArraySort(IntS, BoolS)
            o = z3.Select(z3.Select(eng.old_arr(old, "H2._events#has", ksort), conn), sid)
            n = z3.Select(z3.Select(eng.heap_arr(st, "H2._events#has", ksort), conn), sid)
            eng.assume(st, z3.Implies(o, n))

    reg.rely_hooks.append(rely)

    # ================================================================== has_body_headers
    @reg.contract
    class HasBodyHeaders(Contract):
        key = MOD + "has_body_headers"
        props = ("C03",)
        suspends = False
        result_kind = "bool"

        def spec(self, c, request):
            h = F(c, request, "Request.headers")
            return z3.Or(has_key(h, b"content-length"), has_key(h, b"transfer-encoding"))

        def ensures(self, c):
            return [("true_iff_content_length_or_transfer_encoding_present", ("C03",), c.eng.z_bool(c.eng.truthy(c.st, c.result)) == self.spec(c, c.args["request"]))]

        def apply(self, it, st, self_v, args, kwargs, node):
            from pyvc.engine import Ctx

            req = args[0] if args else kwargs["request"]
            c = Ctx(it.eng, st, None, {}, st.snapshot_heap(), None)
            return VBool(self.spec(c, req))

    # ================================================================== __init__
    @reg.contract
    class Init(Contract):
        key = H2 + ".__init__"
        props = ("C01", "C06", "C09", "C12", "C13", "C08")
        params = {"keepalive_expiry": "opt:real"}

        def ensures(self, c):
            s = c.self
            return [
                ("starts_idle_without_expiry", ("C01", "C09"), z3.And(F(c, s, "H2._state") == IDLE, c.new(s, "H2._expire_at").none)),
                ("stores_stream_and_origin", ("C06", "C01"), z3.And(F(c, s, "H2._network_stream") == c.args["stream"].t, F(c, s, "H2._origin") == c.args["origin"].t)),
                ("stores_expiry", ("C09",), c.eng.z_bool(c.eng.eq(c.st, c.new(s, "H2._keepalive_expiry"), c.args["keepalive_expiry"]))),
                # the reader parks in the network read holding the read lock: a writer (another stream's HEADERS / DATA /
                # WINDOW_UPDATE) must never need that lock, or streams wedge each other (wave-4 seeds C08-w4-1 / C13-w4-1)
                ("read_write_state_and_init_locks_are_four_distinct_locks", ("C12", "C13", "C08"), z3.Distinct(
                    F(c, s, "H2._read_lock"), F(c, s, "H2._write_lock"), F(c, s, "H2._state_lock"), F(c, s, "H2._init_lock"))),
                ("no_streams_no_goaway_no_errors", ("C12", "C01"), z3.And(c.new(s, "H2._events").size(c.eng, c.st) == 0, F(c, s, "H2._connection_terminated") == 0, z3.Not(F(c, s, "H2._connection_error")), z3.Not(F(c, s, "H2._used_all_stream_ids")), z3.Not(F(c, s, "H2._sent_connection_init")))),
            ]

        def apply(self, it, st, self_v, args, kwargs, node):
            eng = it.eng
            a = dict(zip(["origin", "stream", "keepalive_expiry"], args))
            a.update(kwargs)
            eng.heap_write(st, self_v, "H2._origin", a["origin"])
            eng.heap_write(st, self_v, "H2._network_stream", a["stream"])
            eng.heap_write(st, self_v, "H2._keepalive_expiry", eng.coerce(st, a.get("keepalive_expiry", NONE), "opt:real"))
            eng.heap_write(st, self_v, "H2._state", VInt(IDLE))
            eng.heap_write(st, self_v, "H2._expire_at", NONE)
            eng.heap_write(st, self_v, "H2._request_count", VInt(0))
            eng.heap_write(st, self_v, "CI.origin", a["origin"])
            it.emit(st, "H2.__init__", node, conn=self_v, **a)
            return NONE

    # ================================================================== observers
    def observer(name, spec, props):
        @reg.contract
        class Obs(Contract):
            key = H2 + "." + name
            result_kind = "bool"
            suspends = False

            def ensures(self, c):
                return [("spec", props, c.eng.z_bool(c.eng.truthy(c.st, c.result)) == spec(c))]

        Obs.props = props
        Obs.__name__ = "ObsH2_" + name

    observer("is_idle", lambda c: F(c, c.self, "H2._state") == IDLE, ("C01", "C09", "C05", "C07"))
    observer("is_closed", lambda c: F(c, c.self, "H2._state") == CLOSED, ("C01", "C06", "C05", "C04"))
    observer(
        "is_available",
        lambda c: z3.And(F(c, c.self, "H2._state") != CLOSED, z3.Not(F(c, c.self, "H2._connection_error")), z3.Not(F(c, c.self, "H2._used_all_stream_ids")), z3.Not(F(c, c.new(c.self, "H2._h2_state"), "X.closed"))),
        ("C01", "C14", "C12"),
    )

    @reg.contract
    class HasExpired(Contract):
        key = H2 + ".has_expired"
        props = ("C09",)
        result_kind = "bool"
        suspends = False

        def checks(self, c):
            nows = c.events("time.monotonic")
            if len(nows) != 1:
                return [("reads_clock_once", ("C09",), False)]
            exp = c.new(c.self, "H2._expire_at")
            r = c.eng.z_bool(c.eng.truthy(c.st, c.result))
            return [("expired_iff_deadline_passed", ("C09",), r == z3.And(z3.Not(exp.none), nows[0].data["value"].t > exp.val.t))]

    @reg.contract
    class CanHandle(Contract):
        key = H2 + ".can_handle_request"
        props = ("C10", "C01")
        result_kind = "bool"
        suspends = False

        def ensures(self, c):
            o = c.new(c.self, "H2._origin")
            return [("gate", ("C10", "C01"), c.eng.coerce(c.st, c.result, "bool").t == origin_fields_equal(c.eng, c.st, c.args["origin"], o))]

        def apply(self, it, st, self_v, args, kwargs, node):
            o = it.eng.heap_read(st, self_v, "H2._origin")
            other = args[0] if args else kwargs["origin"]
            return VBool(origin_fields_equal(it.eng, st, other, o))

    # ================================================================== aclose
    @reg.contract
    class Close(Contract):
        key = H2 + ".aclose"
        props = ("C06", "C01", "C05")
        modifies = ("H2._state", "NS.open", "X.closed")
        raises = ["Cancelled"]
        call_raises = []

        def ensures(self, c):
            s = c.self
            stream = c.new(s, "H2._network_stream")
            return [("stream_closed", ("C06",), z3.Not(F(c, stream, "NS.open")))]

        def exc_ensures(self, c, exc):
            return self.ensures(c)

        def checks(self, c):
            seen_write = False
            ok = True
            for e in c.trace:
                if e.name == "field.write" and e.data["key"] == "H2._state":
                    seen_write = True
                if e.name == "suspend" and not seen_write:
                    ok = False
            w = [e for e in c.trace if e.name == "field.write" and e.data["key"] == "H2._state"]
            return [
                ("closed_flag_before_first_await", ("C01", "C05"), ok and len(w) == 1),
                ("state_set_to_closed", ("C01", "C05", "C06"), c.eng.coerce(c.st, w[0].data["value"], "int").t == CLOSED if w else False),
            ]

        exc_checks = lambda self, c, exc: self.checks(c)  # noqa: E731

    # ================================================================== _write_outgoing_data
    @reg.contract
    class WriteOutgoing(Contract):
        key = H2 + "._write_outgoing_data"
        props = ("C03", "C16", "C15", "C12", "C13", "C14", "C01", "C08")
        modifies = ("NS.written", "X.queue_ver", "H2._write_exception", "H2._connection_error")
        raises = NET_WRITE_RAISES + ["Cancelled", "OtherException"]
        raises_props = ("C15", "C14")  # ConnectionNotAvailable from a write would be re-sent by the pool
        call_raises = NET_WRITE_RAISES + ["Cancelled"]

        def callsite(self, c, ev):
            s = c.self
            lid = lock_id(c.new(s, "H2._write_lock"))
            if ev.name == "h2.data_to_send":
                return [("send_queue_drained_under_the_write_lock", ("C03", "C12", "C08"), lid in ev.data["held"])]
            if ev.name == "net.write":
                dts = c.events("h2.data_to_send")
                return [
                    ("writes_exactly_the_drained_queue", ("C03",), ev.data["buffer"].t == dts[-1].data["value"].t if len(dts) == 1 else False),
                    ("write_under_the_write_lock", ("C03", "C12", "C15"), lid in c.st.held),
                    ("write_timeout_is_requests_write_timeout", ("C16",), ev.data["timeout"].t == timeout_of(ext_of(c, c.args["request"]), "write")),
                    ("writes_own_stream", ("C03",), ev.data["stream"].t == F(c, s, "H2._network_stream")),
                ]
            return []

        def on_field_write(self, c, obj, key, v, node):
            if key == "H2._write_exception":
                ok = isinstance(v, VNone) or (isinstance(v, VExc) and c.eng.classes.issub(v.cls, "Exception") and v.cls in NET_WRITE_RAISES)
                return [("sticky_write_failure_is_a_documented_network_error", ("C12", "C15"), ok)]
            return []

        def exc_checks(self, c, exc):
            s = c.self
            out = []
            if exc.tag.get("from", "").startswith("net.write"):
                out.append(("write_failure_marks_connection_errored", ("C14", "C01"), F(c, s, "H2._connection_error")))
            # from the property (C12 "cannot wedge each other"): data_to_send() drains the frames of ALL streams.  If this flow
            # leaves after draining without having written them (its write was cancelled), HEADERS / DATA / WINDOW_UPDATE of OTHER
            # requests are gone and the HPACK contexts diverge: the connection must at least be marked broken
            # (design_probes/w5_preexisting/C03_preexisting_3.py)
            drained = len(c.events("h2.data_to_send")) >= 1
            wrote = any("result" in e.data or e.data.get("done") for e in c.events("net.write"))
            if drained and exc.cls == "Cancelled":
                out.append(("frames_of_other_streams_are_not_lost_silently_when_the_write_is_cancelled", ("C12", "C03"), F(c, s, "H2._connection_error")))
            return out

    # ================================================================== _read_incoming_data
    @reg.contract
    class ReadIncoming(Contract):
        key = H2 + "._read_incoming_data"
        props = ("C02", "C16", "C15", "C14", "C12")
        result_kind = "seq:ref:" + EV
        modifies = ("NS.pending", "X.ver", "X.closed", "H2._read_exception", "H2._connection_error")
        raises = NET_READ_RAISES + [RPE, "Cancelled", "OtherException"]
        raises_props = ("C15", "C14")
        call_raises = NET_READ_RAISES + [RPE, "Cancelled"]

        def callsite(self, c, ev):
            s = c.self
            if ev.name == "net.read":
                return [
                    ("read_timeout_is_requests_read_timeout", ("C16",), ev.data["timeout"].t == timeout_of(ext_of(c, c.args["request"]), "read")),
                    ("reads_own_stream", ("C02",), ev.data["stream"].t == F(c, s, "H2._network_stream")),
                ]
            if ev.name == "h2.receive_data":
                reads = c.events("net.read")
                ok = len(reads) == 1 and "result" in reads[0].data
                return [
                    ("feeds_exactly_what_was_read", ("C02",), ev.data["data"].t == reads[0].data["result"].t if ok else False),
                    ("end_of_stream_is_not_fed", ("C02", "C15"), z3.Length(ev.data["data"].t) > 0),
                ]
            return []

        def on_field_write(self, c, obj, key, v, node):
            # representation invariant of the sticky failure: what every later reader will be given is a
            # documented network failure of this read - never a cancellation or an internal error
            if key == "H2._read_exception":
                ok = isinstance(v, VNone) or (isinstance(v, VExc) and c.eng.classes.issub(v.cls, "Exception") and v.cls in NET_READ_RAISES + [RPE])
                return [("sticky_read_failure_is_a_documented_network_error", ("C12", "C15"), ok)]
            return []

        def checks(self, c):
            rd = [e for e in c.events("h2.receive_data") if "result" in e.data]
            return [("returns_h2s_events", ("C02",), c.eng.coerce(c.st, c.result, "seq:ref:" + EV).t == rd[0].data["result"].t if len(rd) == 1 else False)]

        def exc_checks(self, c, exc):
            s = c.self
            out = []
            # RemoteProtocolError has two causes here: the peer hung up (empty read), or h2 rejected the peer's frames
            from_h2 = exc.cls == RPE and bool(exc.args) and isinstance(exc.args[0], VExc) and exc.args[0].tag.get("from") == "h2.receive_data"
            if exc.cls == RPE and not from_h2:
                reads = [e for e in c.events("net.read") if "result" in e.data]
                out.append(("disconnect_error_only_on_empty_read", ("C02", "C15"), z3.Length(reads[-1].data["result"].t) == 0 if reads else False))
            if exc.cls in NET_READ_RAISES + [RPE] and not from_h2:
                out.append(("read_failure_marks_connection_errored", ("C14", "C01"), F(c, s, "H2._connection_error")))
            return out

    # ================================================================== _receive_remote_settings_change
    @reg.contract
    class SettingsChange(Contract):
        key = H2 + "._receive_remote_settings_change"
        props = ("C12",)
        params = {"event": "ref:" + EV}
        modifies = ("H2._max_streams", "Sem.permits", "SemG.mine")
        raises = ["Cancelled"]
        may_block = True  # awaits semaphore.acquire()

        def setup(self, c):
            s = c.self
            c.eng.assume(c.st, z3.And(F(c, s, "H2._max_streams") >= 1, F(c, c.new(s, "H2._h2_state"), "X.lmax") >= 1))

        def _delta(self, c):
            s = c.self
            sem = c.new(s, "H2._max_streams_semaphore")
            return (F(c, sem, "SemG.mine") - F(c, sem, "SemG.mine", old=True)) == (F(c, s, "H2._max_streams") - F(c, s, "H2._max_streams", old=True))

        def loop_invariant(self, c, ordinal):
            inv = [("permits_move_with_the_limit", ("C12",), self._delta(c))]
            names = [n for n in c.interp.loop_test_names(ordinal) if isinstance(c.st.env.get(n), VInt)]
            new = c.st.env.get(names[0]) if names else None
            if ordinal == 1 and isinstance(new, VInt):
                inv.append(("limit_not_below_the_target_while_shrinking", ("C12",), new.t <= F(c, c.self, "H2._max_streams")))
            return inv

        def after_loop_havoc(self, c, ordinal):
            # _max_streams and the semaphore object are only changed by the holder of the read lock
            s = c.self
            c.eng.assume(c.st, F(c, s, "H2._max_streams_semaphore") == F(c, s, "H2._max_streams_semaphore", old=True))

        def on_suspend(self, c, label):
            s = c.self
            st = c.st
            # rely: only this flow (holder of the read lock) changes _max_streams; SemG.mine is this flow's own ghost
            pass

        def ensures(self, c):
            s = c.self
            e = c.args["event"]
            x = c.new(s, "H2._h2_state")
            adv = F(c, e, "E2.changed_max_streams")
            has = z3.And(F(c, e, "E2.has_max_streams"), adv != 0)
            lmax = F(c, x, "X.lmax", old=True)
            new = z3.If(adv < lmax, adv, lmax)
            return [
                ("limit_is_min_of_advertised_and_local", ("C12",), z3.Implies(has, F(c, s, "H2._max_streams") == new)),
                ("limit_unchanged_without_a_usable_value", ("C12",), z3.Implies(z3.Not(has), F(c, s, "H2._max_streams") == F(c, s, "H2._max_streams", old=True))),
                ("permits_adjusted_by_the_same_amount", ("C12",), self._delta(c)),
            ]

    # shared fields this function relies on being stable while the read lock is held by its caller
    def rely_settings(it, st, old):
        eng = it.eng
        c = it.contract
        if not isinstance(c, SettingsChange):
            return
        s = it.ctx.self
        for k, sort in (("H2._max_streams", IntS), ("H2._max_streams_semaphore", IntS)):
            eng.assume(st, z3.Select(eng.heap_arr(st, k, sort), s.t) == z3.Select(eng.old_arr(old, k, sort), s.t))

    reg.rely_hooks.append(rely_settings)

    # semaphore ghost: count this flow's own releases / acquires
    _acq = reg.methods[(SEM, "acquire")]
    _rel = reg.methods[(SEM, "release")]

    def sem_acquire(it, st, self_v, args, kwargs, node):
        r = _acq(it, st, self_v, args, kwargs, node)
        m = it.eng.heap_read(st, self_v, "SemG.mine")
        it.eng.heap_write(st, self_v, "SemG.mine", VInt(m.t - 1))
        return r

    def sem_release(it, st, self_v, args, kwargs, node):
        r = _rel(it, st, self_v, args, kwargs, node)
        m = it.eng.heap_read(st, self_v, "SemG.mine")
        it.eng.heap_write(st, self_v, "SemG.mine", VInt(m.t + 1))
        return r

    reg.methods[(SEM, "acquire")] = sem_acquire
    reg.methods[(SEM, "release")] = sem_release

    # ================================================================== _receive_events
    @reg.contract
    class ReceiveEvents(Contract):
        key = H2 + "._receive_events"
        props = ("C01", "C02", "C12", "C13", "C14", "C15", "C08", "C20", "C16")
        params = {"stream_id": "opt:int", "flow_stream_id": "opt:int"}
        modifies = ("NS.pending", "NS.written", "X.ver", "X.closed", "X.queue_ver", "H2._events", "H2._connection_terminated", "H2._read_exception", "H2._write_exception",
                    "H2._connection_error", "H2._max_streams", "H2._request_count", "Sem.permits", "SemG.mine")
        raises = IO_RAISES + [RPE, CNA, "Cancelled", "OtherException"]
        raises_props = ("C15", "C12")  # an internal error here reaches whichever caller is reading
        call_raises = IO_RAISES + [RPE, CNA, "Cancelled"]
        max_paths = 30000

        def setup(self, c):
            s = c.self
            c.eng.assume(c.st, z3.And(F(c, s, "H2._max_streams") >= 1, F(c, c.new(s, "H2._h2_state"), "X.lmax") >= 1))

        def callsite(self, c, ev):
            s = c.self
            out = []
            rl = lock_id(c.new(s, "H2._read_lock"))
            if ev.name == "call:" + H2 + "._read_incoming_data":
                sid = c.args["stream_id"]
                q = c.new(s, "H2._events")
                pending = z3.And(z3.Not(sid.none), q.has(c.eng, c.st, sid.val.t), z3.Length(q.get(c.eng, c.st, sid.val.t).t) > 0)
                out += [
                    ("network_read_under_the_read_lock", ("C12", "C02", "C08"), rl in c.st.held),
                    ("no_read_while_own_events_are_queued", ("C12", "C02", "C13", "C15", "C08"), z3.Not(pending)),
                    ("no_read_after_goaway", ("C14",), F(c, s, "H2._connection_terminated") == 0),
                ]
                # from the property (C13 "resuming as soon as the window reopens"): a sender waiting for flow-control credit
                # queues for the read lock behind whichever stream is reading; the WINDOW_UPDATE it waits for may be consumed by
                # that reader.  Blocking in a fresh network read with the window open stalls the upload for ever (the server
                # is waiting for the body): the window is re-examined under the lock, in the same atomic step as the read
                # (design_probes/p34)
                fsid = c.args.get("flow_stream_id")
                if fsid is not None and hasattr(fsid, "none"):
                    x = c.new(s, "H2._h2_state")
                    ver = F(c, x, "X.ver")
                    w = reg.h2_window(x.t, ver, fsid.val.t)
                    m = reg.h2_max_frame(x.t, ver)
                    out.append(("no_network_read_for_a_sender_whose_window_is_open", ("C13", "C12"), z3.Or(fsid.none, z3.If(w < m, w, m) <= 0)))
                # (a tree whose _receive_events cannot be told who waits for credit fails the call-site obligation
                # `blocked_sender_names_its_own_stream_for_the_window_recheck` of _wait_for_outgoing_flow instead)
            if ev.name == "list.append":
                # the dispatch: an event goes to the queue of the stream it carries, if registered
                e = ev.data["value"]
                tgt = ev.data["target"]
                cur_ev = c.interp.loop_var(c.st, 0)
                out.append(("events_queued_on_their_own_stream", ("C01", "C12", "C02"), tgt == "H2._events[]" and isinstance(cur_ev, VRef) and cur_ev.t.eq(e.t)))
                lv = ev.data["before"]
                loc = getattr(lv, "loc", None)
                if loc is not None:
                    out.append(("queue_key_is_the_events_stream_id", ("C01", "C12", "C02"), loc[2] == F(c, e, "E2.stream_id")))
            if ev.name == "call:" + H2 + "._receive_remote_settings_change":
                out.append(("no_blocking_call_while_holding_the_read_lock", ("C12",), rl not in c.st.held))
            if ev.name == "lock.acquire" and ev.data.get("lid") == rl:
                # from the property (C16 "no network operation made for a request that configured timeouts is issued without a
                # limit ... every read uses its read timeout"): whoever holds the read lock is parked in the network read with
                # ITS OWN timeout; a request queueing for the lock waits for that read without any limit of its own - unlimited
                # if the holder configured none (design_probes/w4_preexisting/C16_preexisting_2.py).  Nothing in the package
                # bounds a lock acquisition, so this holds only for requests without a read timeout.
                req = c.args["request"]
                out.append(("waiting_to_read_is_limited_by_the_requests_own_read_timeout", ("C16",), timeout_of(ext_of(c, req), "read") == none_val))
            if ev.name == "call:" + H2 + "._write_outgoing_data":
                # a write can fail or be cancelled: everything h2 parsed must already sit in the stream
                # queues (the dispatch loop lies between the read and the write), or other streams lose events
                names = [e.name for e in c.trace]
                rd = [i for i, n in enumerate(names) if n == "call:" + H2 + "._read_incoming_data"]
                cut = [i for i, n in enumerate(names) if n == "loop_cut"]
                out.append(("parsed_events_are_dispatched_before_the_flush", ("C02", "C12", "C01"), (not rd) or (bool(cut) and cut[-1] > rd[-1])))
            if ev.name == "field.write.check":
                pass
            return out

        def on_field_write(self, c, obj, key, v, node):
            if key == "H2._connection_terminated":
                e = c.interp.loop_var(c.st, 0)
                return [("goaway_event_is_remembered", ("C14",), isinstance(e, VRef) and c.eng.coerce(c.st, v, "ref:" + EV).t.eq(e.t))]
            return []

        def on_back_edge(self, c, ordinal):
            # one event processed per iteration: stream events of registered streams are queued,
            # unknown streams dropped, everything in frame order (the loop walks h2's list)
            e = c.interp.loop_var(c.st, 0)
            if not isinstance(e, VRef):
                return [("walks_the_event_list", ("C12",), False)]
            t = typ(e.t)
            apps = c.since_cut({"list.append"})
            q = c.new(c.self, "H2._events")
            is_stream_ev = z3.Or(*[t == cid("h2.events." + n) for n in ("ResponseReceived", "DataReceived", "StreamEnded", "StreamReset")])
            known = q.has(c.eng, c.st, F(c, e, "E2.stream_id"))
            out = [
                ("stream_event_of_a_registered_stream_is_queued_exactly_once", ("C12", "C02"), z3.Implies(z3.And(is_stream_ev, known), z3.BoolVal(len(apps) == 1))),
                ("nothing_else_is_queued", ("C12", "C01"), z3.Implies(z3.Not(is_stream_ev), z3.BoolVal(len(apps) == 0))),
                # flow-control credit of DATA that is dropped (stream not registered any more) must be returned
                ("dropped_data_is_acknowledged", ("C12", "C13"), z3.Implies(z3.And(t == cid("h2.events.DataReceived"), z3.Not(known)), z3.BoolVal(len(c.since_cut({"h2.acknowledge_received_data"})) == 1))),
            ]
            return out

        def on_loop_break(self, c, ordinal):
            return [("every_event_is_dispatched", ("C12", "C02"), False)]

        def exc_checks(self, c, exc):
            s = c.self
            out = []
            if exc.cls == CNA:
                sid = c.args["stream_id"]
                term = c.new(s, "H2._connection_terminated")
                last = F(c, term, "E2.last_stream_id")
                out += [
                    ("refused_only_above_goaway_last_stream_id", ("C14", "C15", "C20"), z3.And(term.t != 0, z3.Not(sid.none), sid.val.t > last)),
                    ("refusal_before_any_read", ("C14",), len(c.events("net.read")) == 0 and len(c.events("call:" + H2 + "._read_incoming_data")) == 0),
                ]
            if exc.cls == RPE and not exc.tag.get("from"):
                # converse, from the property: a stream above the GOAWAY's last-stream-id (0 included: nothing was
                # processed) is re-sent elsewhere, i.e. refused with ConnectionNotAvailable - never failed
                sid = c.args["stream_id"]
                term = c.new(s, "H2._connection_terminated")
                last = F(c, term, "E2.last_stream_id")
                out.append(("stream_above_goaway_last_stream_id_is_refused_not_failed", ("C14",), z3.Not(z3.And(term.t != 0, z3.Not(sid.none), sid.val.t > 0, sid.val.t > last))))
            return out

    # ================================================================== _receive_stream_event
    @reg.contract
    class ReceiveStreamEvent(Contract):
        key = H2 + "._receive_stream_event"
        props = ("C01", "C02", "C12", "C15")
        params = {"stream_id": "int"}
        result_kind = "ref:" + EV
        modifies = ReceiveEvents.modifies
        raises = IO_RAISES + [RPE, CNA, "Cancelled", "KeyError"]
        raises_props = ("C15",)
        call_raises = IO_RAISES + [RPE, CNA, "Cancelled"]

        def setup(self, c):
            # this flow registered the stream (handle_async_request) and has not closed it yet
            s = c.self
            sid = c.args["stream_id"]
            c.eng.assume(c.st, c.new(s, "H2._events").has(c.eng, c.st, sid.t))
            my_streams(c.st).append((s.t, sid.t))

        def callsite(self, c, ev):
            if ev.name == "call:" + H2 + "._receive_events":
                sid = kwarg(ev, "stream_id", 1)
                r = kwarg(ev, "request", 0)
                return [
                    ("waits_for_events_of_own_stream", ("C12", "C01"), c.eng.coerce(c.st, sid, "int").t == c.args["stream_id"].t if sid is not None else False),
                    ("passes_the_request", ("C16",), r.t == c.args["request"].t if r is not None else False),
                ]
            return []

        def checks(self, c):
            s = c.self
            sid = c.args["stream_id"].t
            pops = [e for e in c.since_cut(None) if e.name == "list.pop"]
            r = c.result
            return [
                ("never_returns_a_reset", ("C02", "C15"), typ(r.t) != cid("h2.events.StreamReset")),
            ]

        def exc_checks(self, c, exc):
            if exc.cls == "KeyError":
                return [("own_stream_queue_exists", ("C12", "C15"), False)]
            return []

        def result_builder(self, c):
            r = c.result
            eng, st = c.eng, c.st
            t = typ(r.t)
            eng.assume(st, r.t > 0)
            eng.assume(st, z3.Or(*[t == cid("h2.events." + n) for n in ("ResponseReceived", "DataReceived", "StreamEnded")]))
            # events of a queue carry the queue's stream id (events_queued_on_their_own_stream)
            sid = c.args["stream_id"]
            eng.assume(st, F(c, r, "E2.stream_id") == eng.coerce(st, sid, "int").t)
            fl = F(c, r, "E2.flow_controlled_length")
            eng.assume(st, z3.And(fl >= z3.Length(F(c, r, "E2.data")), fl >= 0))
            c.interp.emit(st, "H2.stream_event", None, result=r, stream_id=sid)
            return r

    # ================================================================== _receive_response
    @reg.contract
    class ReceiveResponse(Contract):
        key = H2 + "._receive_response"
        props = ("C02", "C15", "C16", "C01")
        params = {"stream_id": "int"}
        modifies = ReceiveEvents.modifies
        raises = IO_RAISES + [RPE, CNA, "Cancelled"]
        raises_props = ("C15",)
        call_raises = IO_RAISES + [RPE, CNA, "Cancelled"]

        def callsite(self, c, ev):
            if ev.name == "call:" + H2 + "._receive_stream_event":
                sid = kwarg(ev, "stream_id", 1)
                r = kwarg(ev, "request", 0)
                return [
                    ("reads_events_of_own_stream", ("C01", "C12"), c.eng.coerce(c.st, sid, "int").t == c.args["stream_id"].t if sid is not None else False),
                    ("passes_the_request", ("C16",), r.t == c.args["request"].t if r is not None else False),
                ]
            return []

        def loop_invariant(self, c, ordinal):
            if ordinal == 1:
                # header loop: `headers` is the non-pseudo headers of the processed prefix, in order
                evs_ = [e for e in c.trace if e.name == "H2.stream_event"]
                ev = evs_[-1].data["result"] if evs_ else None
                lists = [v for k, v in c.st.env.items() if isinstance(v, (VSeq, VList)) and not k.startswith("$")]
                hs = lists[0] if len(lists) == 1 else None
                i = c.st.env.get("$i1")
                if isinstance(ev, VRef) and i is not None and isinstance(hs, (VSeq, VList)):
                    src = F(c, ev, "E2.headers")
                    x = z3.Const("hx2", HdrS)
                    prefix = z3.SubSeq(src, 0, i.t)
                    colon = bytes_lit(b":")
                    return [("headers_are_the_non_pseudo_headers_so_far", ("C02",), c.eng.coerce(c.st, hs, "seq:hdr").t == filter_map(prefix, x, z3.Not(z3.PrefixOf(colon, HdrS.hk(x))), x, HdrS))]
            return []

        def setup(self, c):
            c.st.ghost["list_elem_kind"] = {"*": "hdr"}

        def after_loop_havoc(self, c, ordinal):
            if ordinal == 1:
                evs_ = [e for e in c.trace if e.name == "H2.stream_event"]
                ev = evs_[-1].data["result"] if evs_ else None
                i = c.st.env.get("$i1")
                if isinstance(ev, VRef) and i is not None:
                    src = F(c, ev, "E2.headers")
                    x = z3.Const("hx2", HdrS)
                    colon = bytes_lit(b":")
                    c.eng.assume(c.st, z3.Implies(z3.And(i.t >= 0, i.t < z3.Length(src)), filter_map_step(src, i.t, x, z3.Not(z3.PrefixOf(colon, HdrS.hk(x))), x, HdrS)))

        def on_back_edge(self, c, ordinal):
            if ordinal == 0:
                evs = c.since_cut({"H2.stream_event"})
                if len(evs) != 1:
                    return [("one_event_per_iteration", ("C02",), False)]
                return [("skips_only_non_response_events", ("C02",), typ(evs[0].data["result"].t) != cid("h2.events.ResponseReceived"))]
            return []

        def checks(self, c):
            res = c.eng.unbox(c.st, c.result)
            evs = [e for e in c.trace if e.name == "H2.stream_event"]
            ok = isinstance(res, VTuple) and len(res.items) == 2 and evs
            if not ok:
                return [("returns_status_and_headers_of_the_response_event", ("C02",), False)]
            e = evs[-1].data["result"]
            return [("head_comes_from_a_response_received_event", ("C02", "C01"), typ(e.t) == cid("h2.events.ResponseReceived"))]

        def apply(self, it, st, self_v, args, kwargs, node):
            eng = it.eng
            it.suspend(st, f"call:_receive_response@{node.lineno}")
            raises = [r for r in self.call_raises if not (r == "Cancelled" and (eng.tree != "async" or st.shield > 0))]
            names = ["returns"] + [r.rsplit(".", 1)[-1] for r in raises]
            k = eng.choose(st, len(names), f"call:_receive_response@{node.lineno}", names)
            eng.havoc_heap(st, keys=set(self.modifies), keep_local=False)
            if k > 0:
                eng.raise_(st, raises[k - 1], tag={"from": "_receive_response"})
            status = eng.fresh(st, "int", "status")
            headers = eng.fresh(st, "seq:hdr", "h2headers")
            res = VTuple([status, headers])
            it.emit(st, "H2.head", node, result=res)
            return res

    # ================================================================== _receive_response_body
    @reg.contract
    class ReceiveResponseBody(GeneratorContract):
        key = H2 + "._receive_response_body"
        props = ("C02", "C13", "C15", "C16", "C12")
        params = {"stream_id": "int"}
        modifies = ReceiveEvents.modifies
        raises = IO_RAISES + [RPE, CNA, "Cancelled", "GeneratorExit"]
        raises_props = ("C15",)

        def callsite(self, c, ev):
            out = []
            if ev.name == "call:" + H2 + "._receive_stream_event":
                sid = kwarg(ev, "stream_id", 1)
                out.append(("reads_events_of_own_stream", ("C01", "C12"), c.eng.coerce(c.st, sid, "int").t == c.args["stream_id"].t if sid is not None else False))
            if ev.name == "h2.acknowledge_received_data":
                evs = c.since_cut({"H2.stream_event"})
                ok = len(evs) == 1
                e = evs[0].data["result"] if ok else None
                out += [
                    ("acknowledges_the_flow_controlled_length", ("C13", "C12"), c.eng.coerce(c.st, ev.data["acknowledged_size"], "int").t == F(c, e, "E2.flow_controlled_length") if ok else False),
                    ("acknowledges_on_own_stream", ("C13",), c.eng.coerce(c.st, ev.data["stream_id"], "int").t == c.args["stream_id"].t),
                ]
            return out

        def on_yield(self, c, v, node):
            evs = c.since_cut({"H2.stream_event", "yield", "h2.acknowledge_received_data", "call:" + H2 + "._write_outgoing_data"})
            names = [e.name for e in evs]
            goals = [("credit_returned_and_flushed_before_the_data_is_handed_over", ("C13", "C12"), names == ["H2.stream_event", "h2.acknowledge_received_data", "call:" + H2 + "._write_outgoing_data", "yield"])]
            if names and names[0] == "H2.stream_event":
                e = evs[0].data["result"]
                goals.append(("yields_only_data_events", ("C02",), typ(e.t) == cid("h2.events.DataReceived")))
                goals.append(("yields_the_event_data", ("C02",), c.eng.coerce(c.st, v, "bytes").t == F(c, e, "E2.data")))
            for label, props, goal in goals:
                c.eng.oblige(c.st, label, goal, props=props, kind="call-pre")

        def on_back_edge(self, c, ordinal):
            evs = c.since_cut({"H2.stream_event", "yield"})
            if not evs or evs[0].name != "H2.stream_event":
                return [("one_event_per_iteration", ("C02",), False)]
            e = evs[0].data["result"]
            t = typ(e.t)
            yielded = len(evs) == 2 and evs[1].name == "yield"
            return [
                ("every_data_event_is_yielded", ("C02",), z3.Implies(t == cid("h2.events.DataReceived"), yielded)),
                ("body_continues_only_before_stream_end", ("C02",), t != cid("h2.events.StreamEnded")),
            ]

        def checks(self, c):
            evs = c.since_cut({"H2.stream_event", "yield"})
            ok = len(evs) == 1 and evs[0].name == "H2.stream_event"
            return [("body_ends_only_on_stream_ended", ("C02",), typ(evs[0].data["result"].t) == cid("h2.events.StreamEnded") if ok else False)]

    # ================================================================== _wait_for_outgoing_flow
    @reg.contract
    class WaitForFlow(Contract):
        key = H2 + "._wait_for_outgoing_flow"
        props = ("C13", "C12", "C15")
        params = {"stream_id": "int"}
        result_kind = "int"
        modifies = ReceiveEvents.modifies
        raises = IO_RAISES + [RPE, CNA, "Cancelled"]
        raises_props = ("C15",)

        def callsite(self, c, ev):
            if ev.name == "call:" + H2 + "._receive_events":
                sid = kwarg(ev, "stream_id", 1)
                none = sid is None or isinstance(sid, VNone)
                fs = kwarg(ev, "flow_stream_id", 2)
                mine = isinstance(fs, VInt) and z3.is_true(z3.simplify(fs.t == c.args["stream_id"].t))
                return [("blocked_sender_always_reads_the_network", ("C13", "C12", "C15"), none),
                        ("blocked_sender_names_its_own_stream_for_the_window_recheck", ("C13",), bool(mine))]
            return []

        def flow_now(self, c):
            s = c.self
            x = c.new(s, "H2._h2_state")
            ver = F(c, x, "X.ver")
            w = reg.h2_window(x.t, ver, c.args["stream_id"].t)
            m = reg.h2_max_frame(x.t, ver)
            return z3.If(w < m, w, m)

        def loop_invariant(self, c, ordinal):
            names = [n for n in c.interp.loop_test_names(ordinal) if isinstance(c.st.env.get(n), VInt)]
            fl = c.st.env.get(names[0]) if names else None
            if not isinstance(fl, VInt):
                return [("flow_is_tracked", ("C13",), False)]
            return [("flow_is_min_of_current_window_and_frame_size", ("C13",), fl.t == self.flow_now(c))]

        def ensures(self, c):
            r = c.result.t
            return [
                ("returns_positive_flow", ("C13",), r > 0),
                ("returns_min_of_current_window_and_frame_size", ("C13",), r == self.flow_now(c)),
            ]

        def checks(self, c):
            # the limits were read after the last suspension point
            idx = [i for i, e in enumerate(c.trace) if e.name == "suspend"]
            reads = [i for i, e in enumerate(c.trace) if e.name == "h2.local_flow_control_window"]
            return [("limits_read_after_the_last_wait", ("C13",), bool(reads) and (not idx or reads[-1] > idx[-1]))]

    # ================================================================== _send_stream_data
    @reg.contract
    class SendStreamData(Contract):
        key = H2 + "._send_stream_data"
        props = ("C13", "C03", "C15")
        params = {"stream_id": "int", "data": "bytes"}
        modifies = ReceiveEvents.modifies
        raises = IO_RAISES + [RPE, CNA, H2_PROTOCOL_ERROR, "Cancelled"]
        raises_props = ("C15",)

        def loop_invariant(self, c, ordinal):
            return []

        def callsite(self, c, ev):
            s = c.self
            out = []
            if ev.name == "h2.send_data":
                waits = [e for e in c.since_cut({"call:" + H2 + "._wait_for_outgoing_flow"}) if "result" in e.data]
                data0 = st_data_at_iter_start(c)
                chunk = c.eng.coerce(c.st, ev.data["data"], "bytes").t
                x = c.new(s, "H2._h2_state")
                ver = F(c, x, "X.ver")
                w = reg.h2_window(x.t, ver, c.args["stream_id"].t)
                m = reg.h2_max_frame(x.t, ver)
                i = c.trace.index(waits[-1]) if waits else 0
                susp = [e for e in c.trace[i + 1:] if e.name == "suspend" and "_wait_for_outgoing_flow" not in str(e.data.get("label"))]
                out += [
                    ("chunk_within_stream_and_connection_window", ("C13",), z3.Length(chunk) <= w),
                    ("chunk_within_max_frame_size", ("C13",), z3.Length(chunk) <= m),
                    ("chunk_is_nonempty", ("C13",), z3.Length(chunk) >= 1),
                    ("no_suspension_between_flow_check_and_send", ("C13", "C12"), len(susp) == 0 and len(waits) == 1),
                    ("sends_on_the_given_stream", ("C13", "C03"), c.eng.coerce(c.st, ev.data["stream_id"], "int").t == c.args["stream_id"].t),
                ]
                if data0 is not None:
                    out.append(("chunk_is_the_next_prefix_of_the_data", ("C03", "C13"), z3.PrefixOf(chunk, data0)))
            return out

        def on_back_edge(self, c, ordinal):
            sends = c.since_cut({"h2.send_data"})
            writes = c.since_cut({"call:" + H2 + "._write_outgoing_data"})
            data0 = st_data_at_iter_start(c)
            cur = c.st.env.get("data")
            ok = len(sends) == 1 and data0 is not None and isinstance(cur, VBytes)
            goals = [("one_frame_sent_and_flushed_per_iteration", ("C13", "C03"), len(sends) == 1 and len(writes) == 1)]
            if ok:
                chunk = c.eng.coerce(c.st, sends[0].data["data"], "bytes").t
                goals.append(("sent_plus_rest_is_the_data", ("C03", "C13"), z3.Concat(chunk, cur.t) == data0))
                goals.append(("remaining_data_shrinks", ("C13",), z3.Length(cur.t) < z3.Length(data0)))
            return goals

    def st_data_at_iter_start(c):
        """value of the local `data` right after the loop havoc (start of the arbitrary iteration)"""
        return c.st.ghost.get("data_at_iter_start")

    def _ssd_after_havoc(self, c, ordinal):
        d = c.st.env.get("data")
        c.st.ghost["data_at_iter_start"] = d.t if isinstance(d, VBytes) else None

    SendStreamData.after_loop_havoc = _ssd_after_havoc

    # ================================================================== _send_end_stream / _send_request_body
    @reg.contract
    class SendEndStream(Contract):
        key = H2 + "._send_end_stream"
        props = ("C03", "C13")
        params = {"stream_id": "int"}
        modifies = ("NS.written", "X.ver", "X.queue_ver", "H2._write_exception", "H2._connection_error")
        raises = NET_WRITE_RAISES + [H2_PROTOCOL_ERROR, "Cancelled"]
        raises_props = ("C15",)

        def callsite(self, c, ev):
            if ev.name == "h2.end_stream":
                return [("ends_the_given_stream", ("C03",), c.eng.coerce(c.st, ev.data["stream_id"], "int").t == c.args["stream_id"].t)]
            return []

        def checks(self, c):
            names = [e.name for e in c.trace if e.name in ("h2.end_stream", "call:" + H2 + "._write_outgoing_data")]
            return [("end_stream_then_flush", ("C03",), names == ["h2.end_stream", "call:" + H2 + "._write_outgoing_data"])]

    @reg.contract
    class SendRequestBody(Contract):
        key = H2 + "._send_request_body"
        props = ("C03", "C13", "C15")
        params = {"stream_id": "int"}
        modifies = ReceiveEvents.modifies + ("Body.consumed",)
        raises = IO_RAISES + [RPE, CNA, H2_PROTOCOL_ERROR, "Cancelled"]
        raises_props = ("C15",)

        def requires(self, c):
            v = F(c, c.args["request"], "Request.stream")
            f = z3.Function("isinst_typing_AsyncIterable", ValS, BoolS)
            g = z3.Function("isinst_typing_Iterable", ValS, BoolS)
            return [("body_is_iterable", z3.And(f(v), g(v)))]

        def callsite(self, c, ev):
            out = []
            if ev.name == "call:" + H2 + "._send_stream_data":
                chunks = c.since_cut({"iter.next"})
                a = ev.data["args"]
                d = kwarg(ev, "data", 2)
                sid = kwarg(ev, "stream_id", 1)
                ok = len(chunks) >= 1 and d is not None
                out += [
                    ("sends_exactly_the_chunk_pulled", ("C03",), c.eng.coerce(c.st, d, "bytes").t == chunks[-1].data["value"].t if ok else False),
                    ("sends_on_own_stream", ("C03", "C12"), c.eng.coerce(c.st, sid, "int").t == c.args["stream_id"].t if sid is not None else False),
                ]
            if ev.name == "iter.next":
                out.append(("iterates_the_request_body", ("C03",), ev.data["source"].t == F(c, c.args["request"], "Request.stream")))
            if ev.name == "call:" + H2 + "._send_end_stream":
                sid = kwarg(ev, "stream_id", 1)
                out.append(("ends_own_stream", ("C03",), c.eng.coerce(c.st, sid, "int").t == c.args["stream_id"].t if sid is not None else False))
            return out

        def on_back_edge(self, c, ordinal):
            names = [e.name for e in c.since_cut({"iter.next", "call:" + H2 + "._send_stream_data"})]
            return [("every_chunk_is_sent_once_in_order", ("C03",), names == ["iter.next", "call:" + H2 + "._send_stream_data"])]

        def exc_checks(self, c, exc):
            # C03 ("exactly the caller's body bytes"): END_STREAM tells the server the body is complete - it may be sent only
            # after the body iterator was exhausted normally, never on the way out of a failed or cancelled upload (seed C03-w5-2)
            ends = [e for e in c.trace if e.name == "call:" + H2 + "._send_end_stream"]
            # (an exception that comes out of the one, regular _send_end_stream call itself is that call's failure)
            mine = len(ends) == 1 and "result" not in ends[0].data
            return [("a_failed_upload_is_never_presented_as_complete", ("C03", "C13"), len(ends) == 0 or mine)]

        def checks(self, c):
            req = c.args["request"]
            hb = reg.contracts[MOD + "has_body_headers"].spec(c, req)
            ends = c.since_cut({"call:" + H2 + "._send_end_stream"})
            any_iter = [e for e in c.trace if e.name in ("iter.next", "loop_cut")]
            return [("body_sent_and_stream_ended_iff_body_headers_present", ("C03",), z3.If(hb, z3.BoolVal(len(ends) == 1), z3.BoolVal(len(ends) == 0 and not any_iter)))]

    # ================================================================== _send_request_headers
    @reg.contract
    class SendRequestHeaders(Contract):
        key = H2 + "._send_request_headers"
        props = ("C03", "C13", "C15", "C12")
        params = {"stream_id": "int"}
        modifies = ("NS.written", "X.ver", "X.queue_ver", "X.next_sid", "H2._write_exception", "H2._connection_error")
        raises = NET_WRITE_RAISES + [H2_PROTOCOL_ERROR, "Cancelled", LPE]
        raises_props = ("C15",)
        call_raises = NET_WRITE_RAISES + [H2_PROTOCOL_ERROR, "Cancelled", LPE]

        def h2_headers(self, c):
            req = c.args["request"]
            h = F(c, req, "Request.headers")
            url = c.new(req, "Request.url")
            x = z3.Const("hx3", HdrS)
            hosts = filter_map(h, x, lower_b(HdrS.hk(x)) == bytes_lit(b"host"), HdrS.hv(x), BytesS)
            authority = hosts[0]
            mk = lambda k, v: z3.Unit(HdrS.mk_hdr(bytes_lit(k), v))  # noqa: E731
            pseudo = z3.Concat(mk(b":method", F(c, req, "Request.method")), mk(b":authority", authority), mk(b":scheme", F(c, url, "URL.scheme")), mk(b":path", F(c, url, "URL.target")))
            lk = lower_b(HdrS.hk(x))
            rest = filter_map(h, x, z3.Not(z3.Or(lk == bytes_lit(b"host"), lk == bytes_lit(b"transfer-encoding"))), HdrS.mk_hdr(lk, HdrS.hv(x)), HdrS)
            return z3.Concat(pseudo, rest), hosts

        def callsite(self, c, ev):
            s = c.self
            out = []
            if ev.name == "h2.send_headers":
                spec, hosts = self.h2_headers(c)
                hb = reg.contracts[MOD + "has_body_headers"].spec(c, c.args["request"])
                d = ev.data
                susp = [e for e in c.trace if e.name == "suspend"]
                out += [
                    ("headers_are_pseudo_headers_then_lowercased_rest", ("C03",), c.eng.coerce(c.st, d["headers"], "seq:hdr").t == spec),
                    ("end_stream_iff_no_body_headers", ("C03",), c.eng.z_bool(c.eng.truthy(c.st, d["end_stream"])) == z3.Not(hb)),
                    ("headers_on_the_given_stream", ("C03", "C12"), c.eng.coerce(c.st, d["stream_id"], "int").t == c.args["stream_id"].t),
                    ("headers_sent_before_any_suspension", ("C12", "C01"), len(susp) == 0),
                ]
            if ev.name == "h2.increment_flow_control_window":
                d = ev.data
                out += [
                    ("stream_receive_window_raised_by_2_pow_24", ("C13",), z3.And(c.eng.coerce(c.st, d["increment"], "int").t == 2 ** 24, c.eng.coerce(c.st, d.get("stream_id", NONE), "opt:int").val.t == c.args["stream_id"].t, z3.Not(c.eng.coerce(c.st, d.get("stream_id", NONE), "opt:int").none))),
                ]
            return out

        def checks(self, c):
            names = [e.name for e in c.trace if e.name in ("h2.send_headers", "h2.increment_flow_control_window", "call:" + H2 + "._write_outgoing_data")]
            return [("headers_then_window_then_flush", ("C03", "C13"), names == ["h2.send_headers", "h2.increment_flow_control_window", "call:" + H2 + "._write_outgoing_data"])]

        def exc_checks(self, c, exc):
            if exc.cls == H2_PROTOCOL_ERROR and exc.tag.get("from", "").startswith("h2.send_headers"):
                # from the property (C03 "a request whose head cannot legally be encoded is rejected ... and nothing of it is
                # written" - and the NEXT request must still be serialised faithfully): h2 validates a header block WHILE the HPACK
                # encoder is already indexing its earlier fields (the assumed contract "a raising h2 call leaves the state
                # unchanged" is false here: design_probes/p43), so after a rejected block the connection must not carry another
                # request - the peer could not decode it
                return [("a_rejected_header_block_takes_the_connection_out_of_service_for_later_requests", ("C03", "C12"), F(c, c.self, "H2._connection_error"))]
            if exc.cls == "IndexError":
                return [("request_has_a_host_header", ("C03", "C15"), False)]
            if exc.cls == LPE and not exc.tag.get("from"):
                # C03: a head that cannot be encoded is rejected with LocalProtocolError and nothing of it is written
                _, hosts = self.h2_headers(c)
                return [("rejected_only_without_host_and_before_anything_is_sent", ("C03", "C15"),
                         z3.And(z3.Length(hosts) == 0, z3.BoolVal(not c.events("h2.send_headers") and not c.events("net.write"))))]
            return []

    # ================================================================== _send_connection_init
    @reg.contract
    class SendConnectionInit(Contract):
        key = H2 + "._send_connection_init"
        props = ("C13", "C12", "C03", "C15")
        modifies = ("NS.written", "X.ver", "X.queue_ver", "X.lmax", "H2._write_exception", "H2._connection_error")
        # it was an unchecked "fresh connection: the preface calls do not raise" assumption before; a second request after a
        # failed preface write finds the state machine CLOSED (design_probes/p29).  Now proved: no h2 error leaves this
        # function (the `raises` clause has no h2 class), and it refuses a closed connection before touching anything
        raises = NET_WRITE_RAISES + [CNA, "Cancelled"]
        raises_props = ("C15", "C14")
        call_raises = NET_WRITE_RAISES + [CNA, "Cancelled"]

        def exc_checks(self, c, exc):
            if exc.cls == CNA:
                return [("refuses_only_a_closed_connection_and_before_anything_is_sent", ("C14", "C15"),
                         z3.And(F(c, c.new(c.self, "H2._h2_state"), "X.closed", old=True), z3.BoolVal(not c.events("net.write") and not c.events("h2.initiate_connection"))))]
            return []

        def ensures(self, c):
            x = c.new(c.self, "H2._h2_state")
            return [("advertises_100_concurrent_streams", ("C12",), F(c, x, "X.lmax") == 100)]

        def callsite(self, c, ev):
            if ev.name == "h2.increment_flow_control_window":
                d = ev.data
                sid = d.get("stream_id", NONE)
                return [("connection_receive_window_raised_by_2_pow_24", ("C13",), z3.And(c.eng.coerce(c.st, d["increment"], "int").t == 2 ** 24, z3.BoolVal(isinstance(sid, VNone))))]
            if ev.name == "h2.set_local_settings":
                iv = ev.data["initial_values"]
                ok = isinstance(iv, VDict) and 2 in iv.items and 3 in iv.items
                return [("push_disabled_and_100_streams_advertised", ("C12",), z3.And(c.eng.coerce(c.st, iv.items[2], "int").t == 0, c.eng.coerce(c.st, iv.items[3], "int").t == 100) if ok else False)]
            return []

        def checks(self, c):
            names = [e.name for e in c.trace if e.name in ("h2.set_local_settings", "h2.initiate_connection", "h2.increment_flow_control_window", "call:" + H2 + "._write_outgoing_data")]
            return [("settings_preface_window_flush", ("C13", "C12"), names == ["h2.set_local_settings", "h2.initiate_connection", "h2.increment_flow_control_window", "call:" + H2 + "._write_outgoing_data"])]

    # ================================================================== _response_closed
    @reg.contract
    class ResponseClosed(Contract):
        key = H2 + "._response_closed"
        props = ("C12", "C05", "C09", "C06", "C01", "C13", "C08")
        params = {"stream_id": "int"}
        modifies = ("H2._events", "H2._state", "H2._expire_at", "Sem.permits", "SemG.mine", "NS.open", "X.closed")
        raises = ["Cancelled", "KeyError"]
        call_raises = []

        def setup(self, c):
            s = c.self
            sid = c.args["stream_id"]
            c.eng.assume(c.st, c.new(s, "H2._events").has(c.eng, c.st, sid.t))
            my_streams(c.st).append((s.t, sid.t))
            c.eng.assume(c.st, c.new(s, "H2._events").size(c.eng, c.st) >= 1)
            stream_of_interest(c.st, F(c, s, "H2._network_stream"))

        def callsite(self, c, ev):
            s = c.self
            if ev.name == "sem.release":
                return [("releases_the_connections_stream_slot", ("C12",), ev.data["sem"].t == F(c, s, "H2._max_streams_semaphore"))]
            if ev.name == "for.iter":
                q = c.new(s, "H2._events")
                return [("walks_the_queue_of_the_stream_being_closed", ("C12", "C13"), ev.data["seq"].t == q.get(c.eng, c.st, c.args["stream_id"].t).t)]
            return []

        def loop_frame(self, ordinal):
            # the loop over the unread events only talks to h2 (acknowledge_received_data)
            return [k for k, _ in reg.mutable_keys() if k not in ("X.ver", "X.queue_ver")]

        def on_back_edge(self, c, ordinal):
            e = c.interp.loop_var(c.st, ordinal)
            if not isinstance(e, VRef):
                return [("walks_the_unread_events", ("C13",), False)]
            acks = c.since_cut({"h2.acknowledge_received_data"})
            is_data = typ(e.t) == cid("h2.events.DataReceived")
            one = len(acks) == 1
            right = z3.And(c.eng.coerce(c.st, acks[0].data["acknowledged_size"], "int").t == F(c, e, "E2.flow_controlled_length"),
                           c.eng.coerce(c.st, acks[0].data["stream_id"], "int").t == c.args["stream_id"].t) if one else z3.BoolVal(False)
            return [
                ("unread_data_event_is_acknowledged_with_its_flow_controlled_length", ("C12", "C13"), z3.Implies(is_data, right)),
                ("only_data_events_are_acknowledged", ("C13",), z3.Implies(z3.Not(is_data), z3.BoolVal(len(acks) == 0))),
            ]

        def on_loop_break(self, c, ordinal):
            return [("every_unread_event_is_visited", ("C13",), False)]

        def on_field_write(self, c, obj, key, v, node):
            if key == "H2._state":
                lid = lock_id(c.new(c.self, "H2._state_lock"))
                return [("state_written_under_state_lock", ("C08", "C01"), lid in c.st.held)]
            return []

        def checks(self, c):
            s = c.self
            sid = c.args["stream_id"].t
            q = c.new(s, "H2._events")
            rel = c.events("sem.release")
            dels = [e for e in c.trace if e.name == "suspend"]
            state = F(c, s, "H2._state")
            exp = c.new(s, "H2._expire_at")
            ka = c.new(s, "H2._keepalive_expiry")
            nows = c.events("time.monotonic")
            turned_idle = [e for e in c.trace if e.name == "field.write" and e.data["key"] == "H2._state" and z3.is_int_value(z3.simplify(c.eng.coerce(c.st, e.data["value"], "int").t)) and z3.simplify(c.eng.coerce(c.st, e.data["value"], "int").t).as_long() == IDLE]
            closes = c.events("call:" + H2 + ".aclose")
            if turned_idle and not closes:
                armed = z3.Implies(z3.Not(ka.none), z3.And(z3.Not(exp.none), exp.val.t == nows[-1].data["value"].t + ka.val.t) if nows else z3.BoolVal(False))
            else:
                armed = z3.BoolVal(True)
            # queued DATA of the closed stream that was never handed to the caller must be acknowledged
            oldq = c.old(s, "H2._events")
            x = z3.Const("qe", IntS)
            pending_data = exists_in(oldq.get(c.eng, c.st, sid, heap=c.old_heap).t, x, typ(x) == cid("h2.events.DataReceived"))
            # ... by a loop over the stream's queue that runs before the queue is dropped (each iteration is
            # checked by unread_data_event_is_acknowledged_with_its_flow_controlled_length)
            names = [e.name for e in c.trace if e.name in ("for.iter", "dict.del")]
            acks = [1] if names[:2] == ["for.iter", "dict.del"] else []
            # from the property (C12 "further requests wait for a stream to end rather than fail", C08 "a request never fails because
            # of what another thread did", C05): the connection may report itself IDLE - evictable, expiring - only when no request
            # that has passed the ACTIVE gate is still in flight.  Ghost `admitted` = requests past the gate and not yet closed
            # (>= the registered streams, >= 1: this one).  The code decides on `not self._events`, and a request is registered
            # there only AFTER it has waited for a stream slot: while it waits it is admitted but invisible.
            admitted = z3.Int("H2_admitted_requests")
            c.eng.assume(c.st, admitted >= 1)
            idle_written = z3.BoolVal(bool(turned_idle))
            # from the property (C12 "the number of concurrently open streams never exceeds the limit the server has advertised ...
            # further requests wait for a stream to end rather than fail"): the slot goes to the next request when the response is
            # CLOSED, which may be before the stream has ended (early close, cancelled request).  Unless the stream is reset then,
            # the server still counts it: with a limit of 1 the next request is refused by h2 (TooManyStreamsError ->
            # LocalProtocolError) instead of waiting.  `stream_over` = the peer has ended or reset the stream (unknown here).
            x = c.new(s, "H2._h2_state")
            stream_over = z3.Function("h2_stream_is_over", IntS, IntS, IntS, BoolS)(x.t, F(c, x, "X.ver", old=True), sid)
            resets = [e for e in c.trace if e.name == "h2.reset_stream"]
            return [
                ("slot_passed_on_only_once_the_stream_is_over_for_the_server_too", ("C12",), z3.Or(stream_over, z3.BoolVal(len(resets) == 1))),
                ("idle_only_when_no_admitted_request_is_left", ("C12", "C08", "C05"), z3.Implies(idle_written, admitted - 1 == 0)),
                ("slot_released_exactly_once", ("C12", "C05"), len(rel) == 1),
                ("stream_unregistered", ("C12", "C05"), z3.And(*[e.data["key"].t == sid for e in c.events("dict.del")]) if len(c.events("dict.del")) == 1 else False),
                ("expiry_is_now_plus_keepalive_when_turning_idle", ("C09",), armed),
                ("unread_data_of_a_closed_stream_is_acknowledged", ("C12", "C13"), z3.Implies(pending_data, z3.BoolVal(len(acks) >= 1))),
            ]

        def ensures(self, c):
            s = c.self
            state = F(c, s, "H2._state")
            q = c.new(s, "H2._events")
            return [
                ("idle_only_without_open_streams", ("C01", "C05"), z3.Implies(z3.And(state == IDLE, F(c, s, "H2._state", old=True) == ACTIVE), z3.BoolVal(True))),
            ]

        def exc_checks(self, c, exc):
            if exc.cls == "KeyError":
                return [("closes_a_registered_stream", ("C12", "C15"), False)]
            return []

    # ================================================================== handle_async_request
    @reg.contract
    class HandleRequest(Contract):
        key = H2 + ".handle_async_request"
        props = ("C01", "C03", "C05", "C09", "C12", "C13", "C14", "C15", "C16", "C10", "C08")
        raises = NET_READ_RAISES + [EXC + "WriteError", EXC + "WriteTimeout", CNA, LPE, RPE, "RuntimeError", "Cancelled"]
        raises_props = ("C15",)
        max_paths = 60000
        callsite_events = {"sem.acquire", "h2.get_next_available_stream_id", "call:" + H2 + "._send_request_headers", "call:" + H2 + "._send_request_body",
                           "call:" + H2 + "._receive_response", "call:" + H2 + "._response_closed", "call:" + H2 + "._send_connection_init"}

        def requires(self, c):
            from .m_models import default_port_of, DEFAULT_PORT_TABLE

            req = c.args["request"]
            v = F(c, req, "Request.stream")
            f = z3.Function("isinst_typing_AsyncIterable", ValS, BoolS)
            g = z3.Function("isinst_typing_Iterable", ValS, BoolS)
            known, _ = default_port_of(F(c, c.new(req, "Request.url"), "URL.scheme"), DEFAULT_PORT_TABLE)
            return [("body_is_iterable", z3.And(f(v), g(v))), ("scheme_supported", known)]

        def setup(self, c):
            stream_of_interest(c.st, F(c, c.self, "H2._network_stream"))

        def loop_invariant(self, c, ordinal):
            return []

        def on_field_write(self, c, obj, key, v, node):
            out = []
            s = c.self
            if key == "H2._state":
                lid = lock_id(c.new(s, "H2._state_lock"))
                out += [
                    ("gate_under_state_lock", ("C08", "C01"), lid in c.st.held),
                    ("gate_only_from_active_or_idle", ("C01", "C14"), z3.Or(F(c, s, "H2._state") == ACTIVE, F(c, s, "H2._state") == IDLE)),
                    ("gate_sets_active", ("C01",), c.eng.coerce(c.st, v, "int").t == ACTIVE),
                ]
                c.st.ghost["h2_gate_passed"] = True
            if key == "H2._expire_at":
                out.append(("starting_a_request_clears_expiry", ("C09",), c.eng.z_bool(c.eng.is_none(c.st, v))))
            if key == "H2._max_streams":
                out.append(("starts_with_one_stream_until_settings_arrive", ("C12",), c.eng.coerce(c.st, v, "int").t == 1))
            return out

        def callsite(self, c, ev):
            s = c.self
            req = c.args["request"]
            out = []
            if ev.name == "h2.get_next_available_stream_id":
                acq = [e for e in c.trace if e.name == "sem.acquire"]
                out.append(("stream_id_taken_only_after_acquiring_a_slot", ("C12",), len(acq) >= 1))
                c.st.ghost["sid_event_index"] = len(c.trace) - 1
            for callee in ("_send_request_headers", "_send_request_body", "_receive_response"):
                if ev.name == "call:" + H2 + "." + callee:
                    r = kwarg(ev, "request", 0)
                    sid = kwarg(ev, "stream_id", 1)
                    ids = [e for e in c.trace if e.name == "h2.get_next_available_stream_id"]
                    out.append((f"{callee}_gets_the_request_and_own_stream", ("C03", "C01", "C12", "C16"), z3.And(r.t == req.t, c.eng.coerce(c.st, sid, "int").t == ids[-1].data["value"].t) if r is not None and sid is not None and ids else False))
            if ev.name == "call:" + H2 + "._send_request_headers":
                i = c.st.ghost.get("sid_event_index", 0)
                susp = [e for e in c.trace[i:] if e.name == "suspend"]
                out.append(("no_suspension_between_stream_id_allocation_and_headers", ("C12", "C01", "C15"), len(susp) == 0))
            if ev.name == "call:" + H2 + "._response_closed":
                sid = kwarg(ev, "stream_id", 0)
                ids = [e for e in c.trace if e.name == "h2.get_next_available_stream_id"]
                out.append(("closes_own_stream", ("C12", "C05"), c.eng.coerce(c.st, sid, "int").t == ids[-1].data["value"].t if sid is not None and ids else False))
            return out

        def checks(self, c):
            s = c.self
            req = c.args["request"]
            res = c.result
            heads = c.events("H2.head")
            out = []
            if not (isinstance(res, VRef) and len(heads) == 1):
                return [("returns_a_response_built_from_one_head", ("C01", "C02"), False)]
            head = heads[0].data["result"].items
            ids = [e for e in c.trace if e.name == "h2.get_next_available_stream_id"]
            inits = c.events("call:" + BS2 + ".__init__")
            out += [
                ("response_status_and_headers_are_the_heads", ("C01", "C02"), z3.And(F(c, res, "Response.status") == c.eng.coerce(c.st, head[0], "int").t, F(c, res, "Response.headers") == head[1].t)),
                ("body_stream_bound_to_connection_request_and_stream", ("C01", "C12"), z3.And(F(c, res, "Response.stream") == val_of_ref(inits[0].data["self"].t), F(c, inits[0].data["self"], "BS2._connection") == s.t, F(c, inits[0].data["self"], "BS2._request") == req.t, F(c, inits[0].data["self"], "BS2._stream_id") == ids[-1].data["value"].t) if len(inits) == 1 and ids else False),
            ]
            order = [e.name.rsplit(".", 1)[-1] for e in c.trace if e.name.startswith("call:" + H2 + ".") and e.name.rsplit(".", 1)[-1] in STEPS]
            out.append(("sends_head_then_body_then_reads_head", ("C03", "C01"), order == ["_send_request_headers", "_send_request_body", "_receive_response"]))
            return out

        def exc_checks(self, c, exc):
            s = c.self
            out = []
            names = [e.name.rsplit(".", 1)[-1] for e in c.trace if e.name.startswith("call:" + H2 + ".") and e.name.rsplit(".", 1)[-1] in STEPS]
            gate = c.st.ghost.get("h2_gate_passed", False)
            registered = any(e.name == "h2.get_next_available_stream_id" and True for e in c.trace) and any(e.name == "field.write.dict" for e in c.trace)
            ids = [e for e in c.trace if e.name == "h2.get_next_available_stream_id"]
            got_id = bool(ids) and exc.tag.get("from") != "h2.get_next_available_stream_id" and not (exc.cls == CNA and "_send_request_headers" not in names and not names)
            acq = [e for e in c.trace if e.name == "sem.acquire"]
            rel = c.events("sem.release")
            if exc.cls == "RuntimeError":
                return [("wrong_origin_guard_touches_nothing", ("C10",), not c.events("field.write"))]
            if exc.cls == LPE and exc.args and isinstance(exc.args[0], VExc):
                # h2 errors coming out of the receive path are caused by what the peer sent
                out.append(("malformed_peer_frames_are_reported_as_remote_protocol_error", ("C15",), exc.args[0].tag.get("from") != "_receive_response"))
            if exc.cls == CNA and not gate:
                out.append(("refusal_at_the_gate_touches_nothing", ("C14", "C01"), not c.events("field.write") and not names))
                return out
            if not gate:
                out.append(("failure_before_gate_touches_nothing", ("C05",), not c.events("field.write")))
                return out
            if names:
                out.append(("failed_exchange_releases_its_stream_exactly_once", ("C05", "C12"), names.count("_response_closed") == 1 and names[-1] == "_response_closed"))
                rc = [e for e in c.trace if e.name == "call:" + H2 + "._response_closed"]
                out.append(("cleanup_is_shielded", ("C05",), all(e.data.get("shield", 0) > 0 for e in rc) if c.eng.tree == "async" else True))
                if exc.cls == CNA:
                    out.append(("refusal_after_the_send_only_from_the_goaway_check", ("C14",), cna_is_propagated(exc)))
                    req = c.args["request"]
                    body = VRef(ref_of_val(F(c, req, "Request.stream")), "pyvc.Body")
                    out.append(("refused_request_can_be_resent_in_full", ("C03", "C14"), z3.Or(z3.Not(F(c, body, "Body.consumed")), F(c, body, "Body.consumed", old=True))))
            else:
                # past the gate, no stream exchanged yet: connection init / slot acquisition / id allocation
                init_calls = c.events("call:" + H2 + "._send_connection_init")
                closes = c.events("call:" + H2 + ".aclose")
                if exc.tag.get("from") == "h2.get_next_available_stream_id" or (exc.cls == CNA and ids):
                    out.append(("stream_id_exhaustion_gives_the_slot_back", ("C12", "C05"), len(rel) >= 1))
                elif init_calls and not any("result" in e.data for e in init_calls):
                    out.append(("failed_connection_init_closes_the_connection", ("C05", "C06"), len(closes) == 1))
                else:
                    out.append(("failure_between_gate_and_stream_registration_leaves_connection_usable", ("C05",), False))
            return out

    # ================================================================== byte stream
    @reg.contract
    class BS2Init(Contract):
        key = BS2 + ".__init__"
        props = ("C01",)
        params = {"stream_id": "int"}

        def ensures(self, c):
            s = c.self
            return [("binds_connection_request_stream", ("C01", "C12"), z3.And(F(c, s, "BS2._connection") == c.args["connection"].t, F(c, s, "BS2._request") == c.args["request"].t, F(c, s, "BS2._stream_id") == c.args["stream_id"].t, z3.Not(F(c, s, "BS2._closed"))))]

        def apply(self, it, st, self_v, args, kwargs, node):
            eng = it.eng
            a = dict(zip(["connection", "request", "stream_id"], args))
            a.update(kwargs)
            eng.heap_write(st, self_v, "BS2._connection", a["connection"])
            eng.heap_write(st, self_v, "BS2._request", a["request"])
            eng.heap_write(st, self_v, "BS2._stream_id", eng.coerce(st, a["stream_id"], "int"))
            eng.heap_write(st, self_v, "BS2._closed", VBool(False))
            return NONE

    @reg.contract
    class BS2Close(Contract):
        key = BS2 + ".aclose"
        props = ("C01", "C05", "C12")
        modifies = ("BS2._closed",) + ResponseClosed.modifies
        raises = ["Cancelled"]
        call_raises = []

        def setup(self, c):
            conn = c.new(c.self, "BS2._connection")
            c.eng.assume(c.st, conn.t > 0)
            closed = c.new(c.self, "BS2._closed").t
            c.eng.assume(c.st, z3.Implies(z3.Not(closed), c.new(conn, "H2._expire_at").none))

        def ensures(self, c):
            return [("marks_closed", ("C01", "C05"), F(c, c.self, "BS2._closed"))]

        def checks(self, c):
            calls = [e for e in c.trace if e.name == "call:" + H2 + "._response_closed"]
            was_closed = F(c, c.self, "BS2._closed", old=True)
            conn = c.new(c.self, "BS2._connection")
            n = len(calls)
            own = all(z3.eq(z3.simplify(e.data["self"].t), z3.simplify(conn.t)) for e in calls)
            sid_ok = z3.And(*[c.eng.coerce(c.st, kwarg(e, "stream_id", 0), "int").t == F(c, c.self, "BS2._stream_id") for e in calls]) if calls else True
            return [
                ("stream_released_exactly_once", ("C12", "C05"), z3.If(was_closed, z3.BoolVal(n == 0), z3.BoolVal(n == 1))),
                ("releases_own_stream_on_own_connection", ("C12", "C01"), z3.And(z3.BoolVal(own), sid_ok)),
            ]

    @reg.contract
    class BS2Iter(GeneratorContract):
        key = BS2 + ".__aiter__"
        props = ("C01", "C02", "C05", "C15", "C12")
        raises = NET_READ_RAISES + NET_WRITE_RAISES + [RPE, "Cancelled", "GeneratorExit"]
        raises_props = ("C15",)

        def setup(self, c):
            conn = c.new(c.self, "BS2._connection")
            c.eng.assume(c.st, conn.t > 0)

        def on_yield(self, c, v, node):
            evs = c.since_cut({"iter.item", "yield"})
            ok = len(evs) == 2 and evs[0].name == "iter.item"
            c.eng.oblige(c.st, "yields_exactly_the_inner_chunk", c.eng.coerce(c.st, v, "bytes").t == evs[0].data["value"].t if ok else False, props=("C02",), kind="call-pre")

        def on_back_edge(self, c, ordinal):
            evs = [e.name for e in c.since_cut({"iter.item", "yield"})]
            return [("every_inner_chunk_is_yielded_once", ("C02",), evs == ["iter.item", "yield"])]

        def checks(self, c):
            ended = [e for e in c.trace if e.name == "iter.exhausted"]
            return [("ends_normally_only_after_the_connections_body_generator_ended", ("C02", "C01"), len(ended) == 1)]

        def callsite(self, c, ev):
            if ev.name == "call:" + H2 + "._receive_response_body":
                conn = c.new(c.self, "BS2._connection")
                r = kwarg(ev, "request", 0)
                sid = kwarg(ev, "stream_id", 1)
                return [("reads_body_of_own_stream_on_own_connection", ("C01", "C12"), z3.And(ev.data["self"].t == conn.t, r.t == F(c, c.self, "BS2._request"), c.eng.coerce(c.st, sid, "int").t == F(c, c.self, "BS2._stream_id")) if r is not None and sid is not None else False)]
            return []

        def exc_checks(self, c, exc):
            calls = [e for e in c.trace if e.name == "call:" + BS2 + ".aclose"]
            return [
                ("failure_or_early_exit_closes_the_response", ("C05", "C12"), len(calls) == 1),
                ("cleanup_is_shielded", ("C05",), all(e.data.get("shield", 0) > 0 for e in calls) if c.eng.tree == "async" else True),
            ]

    # ConnectionNotAvailable is originated only by the GOAWAY check of _receive_events (and, before any
    # exchange, by handle_async_request): everywhere else it is passed on from a callee, never raised
    def _passes_on(K):
        orig = K.exc_checks

        def exc_checks(self, c, exc, orig=orig):
            out = list(orig(self, c, exc) or [])
            if exc.cls == CNA:
                out.append(("refusal_is_passed_on_never_originated_here", ("C14",), cna_is_propagated(exc)))
            return out

        K.exc_checks = exc_checks
        if "C14" not in K.props:
            K.props = tuple(K.props) + ("C14",)

    for K in (ReceiveStreamEvent, ReceiveResponse, ReceiveResponseBody, WaitForFlow, SendStreamData, SendEndStream, SendRequestBody,
              SendRequestHeaders, WriteOutgoing, ReadIncoming, SettingsChange, ResponseClosed, BS2Iter, BS2Close):
        _passes_on(K)
