"""Contracts for httpcore/_async/http2.py (AsyncHTTP2Connection, HTTP2ConnectionByteStream,
has_body_headers) and the sync twin.  h2 itself is an assumed contract (ext_h2.py)."""
from __future__ import annotations

import z3

from pyvc.values import *  # noqa: F401,F403
from pyvc.engine import Contract, GeneratorContract, Unsupported
from .common import NS, EXC
from .ext_runtime import LOCK, SEM
from .m_models_fields import ORIGIN, REQUEST

MOD = "httpcore._async.http2."
H2 = MOD + "AsyncHTTP2Connection"
BS2 = MOD + "HTTP2ConnectionByteStream"
H2C = "h2.connection.H2Connection"

ACTIVE, IDLE, CLOSED = 1, 2, 3


def F(c, ref, key, old=False):
    return (c.old(ref, key) if old else c.new(ref, key)).t


def register(reg):
    reg.ext_class(H2C)
    reg.fields(
        H2,
        "H2",
        const=["_origin", "_network_stream", "_keepalive_expiry", "_h2_state", "_init_lock", "_state_lock", "_read_lock", "_write_lock"],
        shared=["_state", "_expire_at", "_request_count", "_sent_connection_init", "_used_all_stream_ids", "_connection_error",
                "_events", "_connection_terminated", "_read_exception", "_write_exception", "_max_streams", "_max_streams_semaphore"],
        _origin="ref:" + ORIGIN,
        _network_stream="ref:" + NS,
        _keepalive_expiry="opt:real",
        _h2_state="ref:" + H2C,
        _state="int",
        _expire_at="opt:real",
        _request_count="int",
        _init_lock="ref:" + LOCK,
        _state_lock="ref:" + LOCK,
        _read_lock="ref:" + LOCK,
        _write_lock="ref:" + LOCK,
        _sent_connection_init="bool",
        _used_all_stream_ids="bool",
        _connection_error="bool",
        _events="dict:int:seq:ref:h2.events.Event",
        _connection_terminated="ref:h2.events.Event",
        _read_exception="val",
        _write_exception="val",
        _max_streams="int",
        _max_streams_semaphore="ref:" + SEM,
    )

    @reg.contract
    class Init(Contract):
        key = H2 + ".__init__"
        props = ("C01", "C06", "C09", "C12")
        params = {"keepalive_expiry": "opt:real"}
        trees = ()  # body verified in a later step; call semantics used by the connection classes

        def apply(self, it, st, self_v, args, kwargs, node):
            eng = it.eng
            a = dict(zip(["origin", "stream", "keepalive_expiry"], args))
            a.update(kwargs)
            eng.heap_write(st, self_v, "H2._origin", a["origin"])
            eng.heap_write(st, self_v, "H2._network_stream", a["stream"])
            eng.heap_write(st, self_v, "H2._keepalive_expiry", eng.coerce(st, a.get("keepalive_expiry", NONE), "opt:real"))
            eng.heap_write(st, self_v, "H2._state", VInt(IDLE))
            eng.heap_write(st, self_v, "H2._expire_at", NONE)
            eng.heap_write(st, self_v, "H2._request_count", VInt(0))
            eng.heap_write(st, self_v, "CI.origin", a["origin"])
            it.emit(st, "H2.__init__", node, conn=self_v, **a)
            return NONE
